"""Stream runners: each returns {cases, nontrivial, samples, violations[, error]}.
A violation is {case, detail, concrete}: concrete = the specification oracle (or a theorem equating model and
specification) shows that the implementation's output on this input violates the property."""
import hashlib, json, os, re, subprocess, time

TRUSTED_BASE = [
    "Coq 8.16.1 kernel via coqc (full .vo build, no -vos/-vok); vm_compute is used for finite sweeps, witnesses and cases.v evaluation; native_compute is not used",
    "axioms: none - Print Assumptions of every property theorem reports 'Closed under the global context'",
    "extraction: Require Extraction + ExtrOcamlBasic only (bool, option, list, prod, unit, sumbool -> OCaml); no Extract Constant / Extract Inductive of ours; OCaml 4.13.1; hand-written line reader ocaml/driver.ml",
    "correspondence check: Go harness /verif/harness built against /repo's working tree (replace directive), tools/check.py, tools/streams.py",
    "modelled, not verified: Go standard library (encoding/asn1, encoding/json, encoding/pem, encoding/base64, time, math/big, crypto/*), keybase brainpool, ghodss/yaml, jsonschema, os / io/fs, cobra",
]

# ---------------------------------------------------------------- pipe streams: harness | extracted driver
PIPE = {"merge": "merge", "validate": "validate", "plan": "plan", "graph": "graph"}

# coqc evaluations are scheduled through one semaphore so that a thorough run cannot start more of them than memory allows
# (a shard of 15 MB of case terms was seen to need 10-20 GB; shards are therefore also cut by size, see run_hview)
import threading
_COQ_SEM = threading.Semaphore(int(os.environ.get("VERIF_COQ_PAR", "12")))
class Coqc:
    def __init__(self, args, cwd, env):
        self.returncode = None; self.out = ""; self.err = ""; self.p = None
        self.t = threading.Thread(target=self._run, args=(args, cwd, env), daemon=True); self.t.start()
    def _run(self, args, cwd, env):
        with _COQ_SEM:
            try:
                self.p = subprocess.Popen(args, cwd=cwd, stdout=subprocess.PIPE, stderr=subprocess.PIPE, text=True, env=env)
                self.out, self.err = self.p.communicate()
                self.returncode = self.p.returncode
                if self.returncode < 0: self.err += " [coqc ended by signal %d - out of memory?]" % (-self.returncode)
            except Exception as ex:
                self.returncode = 99; self.err = "could not run coqc: %s" % ex
    def communicate(self, timeout=None):
        self.t.join(timeout)
        if self.t.is_alive(): raise subprocess.TimeoutExpired("coqc", timeout)
        return self.out, self.err
    def kill(self):
        if self.p is not None:
            try: self.p.kill()
            except Exception: pass

def nshards(terms, per, cap, max_bytes=1500000):
    # at least one, at most [cap] by case count, but never more than [max_bytes] of case terms in one coqc
    return max(1, min(cap, len(terms) // per), -(-sum(len(t) for t in terms) // max_bytes))

def nontrivial_pipe(kind, line):
    f = line[2:].split("|")
    if kind == "merge": return f[0] != "" and f[1] != ""
    if kind == "validate": return f[1] not in ("", "nil")
    if kind == "plan": return ",1," in "," + f[1]  # some file present (coarse) 
    if kind == "graph": return f[0].count(",") >= 1
    return True

def run_pipe(kind, tier, seed, C):
    epath = os.path.join(C["bdir"], "harness-%s.err" % kind); dpath = os.path.join(C["bdir"], "driver-%s.out" % kind)
    efile = open(epath, "w"); dfile = open(dpath, "w")   # files, not pipes: nobody reads them while we feed the driver
    h = subprocess.Popen([os.path.join(C["VERIF"], "harness", "harness"), kind, tier, str(seed)], stdout=subprocess.PIPE, stderr=efile, env=C["ENV"], text=True, bufsize=1 << 20)
    d = subprocess.Popen([os.path.join(C["VERIF"], "ocaml", "driver")], stdin=subprocess.PIPE, stdout=dfile, env=C["ENV"], text=True, bufsize=1 << 20)
    seen = set(); n = 0; samples = []
    for line in h.stdout:
        n += 1
        d.stdin.write(line)
        if nontrivial_pipe(kind, line): seen.add(hash(line))
        if n in (7, 5003, 50021): samples.append(line.strip())
    d.stdin.close()
    h.wait(); d.wait(); efile.close(); dfile.close()
    herr = open(epath).read(); dout = open(dpath).read()
    lines = dout.strip().split("\n")
    done = re.match(r"DONE cases=(\d+) mismatches=(\d+)", lines[-1]) if lines and lines[-1] else None
    viol = []
    for l in lines:
        if l.startswith("MISMATCH") or l.startswith("BADLINE"):
            m = re.match(r"(MISMATCH|BADLINE) (\S+ \S+)\s*(.*)", l)
            case, detail = (m.group(2), m.group(3)) if m else (l, "")
            # the model at the current switches is proved equal to the specification (merge_refines_spec, validate_fixed_spec,
            # plan_spec, is_consistent_iff), so an input on which the implementation differs from it violates the property
            viol.append({"case": case, "detail": detail, "concrete": l.startswith("MISMATCH")})
    err = None
    if h.returncode != 0 or d.returncode != 0 or not done:
        err = "stream %s broke (harness rc=%s, driver rc=%s): %s" % (kind, h.returncode, d.returncode, (herr or dout)[-300:])
    elif int(done.group(1)) != n:
        err = "stream %s: driver saw %s of %d cases" % (kind, done.group(1), n)
    return {"cases": n, "nontrivial": len(seen), "samples": samples, "violations": viol, "error": err}

def count_check(coq_output, parsed, name):
    """the Coq file prints the number of reported entries separately: whatever our parser extracted must be exactly that many"""
    m = re.search(r"MN\s*=\s*(\d+)", coq_output)
    if not m: return "coqc %s: entry count missing" % name
    if int(m.group(1)) != parsed: return "coqc %s: %s entries reported by Coq, %d parsed" % (name, m.group(1), parsed)
    return None

# ---------------------------------------------------------------- cases.v streams: harness output evaluated inside Coq
CASES_HEADER = """From Coq Require Import List NArith ZArith Bool String.
From Coq.Strings Require Import Byte.
From Gopki.Model Require Import Bytes Base64 Der Asn1 Text Algs Ext Rdn Time X509 Generate Merge Validate Current Effective CaseLib.
Import ListNotations.
Set Printing Depth 1000000.
Definition cases : list (bool * cert_case) := [
"""
CODES = {1: "the model yields a certificate, the implementation reported an error", 2: "the implementation wrote a certificate although the model (and the property) demands an error",
         3: "certificate bytes differ from the model", 4: "strict X.509/DER parser rejects the implementation's certificate or re-encoding changes it",
         5: "C02 shape rule violated (version v3 / inner = outer / RSA NULL, ECDSA absent parameters / serial 0..2^159)",
         6: "SubjectPublicKeyInfo algorithm is not what the configured keyAlgorithm demands",
         101: "version", 102: "serial", 103: "inner signature algorithm", 104: "issuer DN", 105: "notBefore", 106: "notAfter", 107: "subject DN", 108: "SubjectPublicKeyInfo",
         109: "issuerUniqueID", 110: "subjectUniqueID", 111: "number of extensions", 112: "outer signature algorithm", 113: "signature value"}

def code_text(c):
    if c >= 120: return "extension #%d differs from the configured one" % (c - 120)
    return CODES.get(c, str(c))

def run_cert(kind, tier, seed, C, tz=None):
    env = dict(C["ENV"])
    if tz and "=" in tz:      # "<stream>@NAME=value": another environment variable (e.g. GOMAXPROCS=3)
        k, v = tz.split("=", 1); env[k] = v
    elif tz: env["TZ"] = tz
    tag = kind + ("-" + re.sub(r"\W", "_", tz) if tz else "")
    p = subprocess.run([os.path.join(C["VERIF"], "harness", "harness"), kind, tier, str(seed)], capture_output=True, text=True, env=env, timeout=7200)
    if p.returncode != 0:
        return {"cases": 0, "nontrivial": 0, "samples": [], "violations": [], "error": "harness %s failed: %s" % (kind, p.stderr[-300:])}
    descr = []; terms = []; viol = []; notes = 0
    for l in p.stdout.split("\n"):
        if l.startswith("CASE "): descr.append(l[5:])
        elif l.startswith("COQ "): terms.append(l[4:])
        elif l.startswith("SELFFAIL "): viol.append({"case": l[9:200], "detail": l[9:], "concrete": True})
        elif l.startswith("NOTE "): notes += 1
    if len(descr) != len(terms):
        return {"cases": 0, "nontrivial": 0, "samples": [], "violations": viol, "error": "harness %s: %d CASE lines but %d COQ lines" % (kind, len(descr), len(terms))}
    # shard and evaluate
    nsh = nshards(terms, 60, 12)
    procs = []
    for k in range(nsh):
        idx = list(range(k, len(terms), nsh))
        name = "Cases_%s_%d" % (re.sub(r"\W", "_", tag), k)
        v = CASES_HEADER + ";\n".join(terms[i] for i in idx) + "].\nDefinition M := Eval vm_compute in run_cases cases.\nPrint M.\nDefinition MN := Eval vm_compute in List.length M.\nPrint MN.\n"
        open(os.path.join(C["bdir"], name + ".v"), "w").write(v)
        procs.append((idx, name, Coqc(["coqc"] + C["COQ_Q"] + [name + ".v"], C["bdir"], C["ENV"])))
    err = None
    for idx, name, pr in procs:
        try:
            o, e = pr.communicate(timeout=14000)
        except subprocess.TimeoutExpired:
            pr.kill(); err = "coqc %s timed out" % name; continue
        if pr.returncode != 0:
            err = "coqc %s failed: %s" % (name, e.strip()[-400:]); continue
        m = re.search(r"M\s*=\s*(.*?)\s*:\s*list", re.sub(r"%(N|nat|Z)\b", "", o), re.S)
        if not m: err = "coqc %s: no result" % name; continue
        found = re.findall(r"\( ?(\d+)%?n?a?t?, ?\[([^\]]*)\]\)", re.sub(r"\s+", " ", m.group(1)))
        err = count_check(o, len(found), name) or err
        for j, codes in found:
            cs = [int(x) for x in re.findall(r"\d+", codes)]
            i = idx[int(j)]
            # concrete when the implementation's own output fails a specification check (strict parse, shape, key algorithm,
            # error expected) or a decoded field differs from what the configuration demands
            viol.append({"case": descr[i][:3000], "detail": "; ".join(code_text(c) for c in cs), "codes": cs, "concrete": True, "coq": terms[i][:20000]})
        for f in (name + ".vo", name + ".glob", name + ".vok", name + ".vos", "." + name + ".aux"):
            try: os.remove(os.path.join(C["bdir"], f))
            except OSError: pass
    hist = {}
    for d in descr:
        k = d.split(" ")[3] if len(d.split(" ")) > 3 else "?"
        hist[k] = hist.get(k, 0) + 1
    distinct = len(set(hashlib.sha1(t.encode()).hexdigest() for t, d in zip(terms, descr) if " cert " in d))
    return {"cases": len(terms), "nontrivial": distinct, "samples": [d[:600] for d in descr[3:len(descr):max(1, len(descr) // 3)]][:3], "violations": viol, "error": err, "outcomes": hist,
            **({"rejected_at_parse_time": notes} if notes else {}), **({"tz": tz} if tz else {})}

DIR_HEADER = """From Coq Require Import List Arith Bool String.
From Gopki.Model Require Import Bytes Text Dir Plan Run Ops Cli Current DirCaseLib.
Import ListNotations.
Set Printing Depth 1000000.
Definition cases : list (list hstep * list obsT) := [
"""

def run_dir(kind, tier, seed, C):
    p = subprocess.run([os.path.join(C["VERIF"], "harness", "harness"), kind, tier, str(seed)], capture_output=True, text=True, env=C["ENV"], timeout=7200)
    if p.returncode != 0:
        return {"cases": 0, "nontrivial": 0, "samples": [], "violations": [], "error": "harness %s failed: %s" % (kind, p.stderr[-300:])}
    descr = []; terms = []; viol = []
    for l in p.stdout.split("\n"):
        if l.startswith("CASE "): descr.append(l[5:])
        elif l.startswith("COQ "): terms.append(l[4:])
        elif l.startswith("SELFFAIL "): viol.append({"case": l[9:300], "detail": l[9:], "concrete": True})
    nsh = nshards(terms, 25, 12)
    procs = []
    for k in range(nsh):
        idx = list(range(k, len(terms), nsh))
        name = "Dir_%s_%d" % (kind, k)
        v = DIR_HEADER + ";\n".join(terms[i] for i in idx) + "].\nDefinition M := Eval vm_compute in run_histories cases.\nPrint M.\nDefinition MN := Eval vm_compute in List.length M.\nPrint MN.\n"
        open(os.path.join(C["bdir"], name + ".v"), "w").write(v)
        procs.append((idx, name, Coqc(["coqc"] + C["COQ_Q"] + [name + ".v"], C["bdir"], C["ENV"])))
    err = None; steps = 0; runs = 0
    for t in terms:
        steps += t.count("U (") + t.count("R (mkStrat") + t.count("C (mkFlags") + t.count("CF (mkFlags"); runs += t.count("R (mkStrat") + t.count("C (mkFlags") + t.count("CF (mkFlags")
    for idx, name, pr in procs:
        try: o, e = pr.communicate(timeout=14000)
        except subprocess.TimeoutExpired:
            pr.kill(); err = "coqc %s timed out" % name; continue
        if pr.returncode != 0:
            err = "coqc %s failed: %s" % (name, e.strip()[-400:]); continue
        m = re.search(r"M\s*=\s*(.*?)\s*:\s*list", re.sub(r"%(N|nat|Z)\b", "", o), re.S)
        if not m: err = "coqc %s: no result" % name; continue
        body = re.sub(r"\s+", " ", m.group(1))
        RULES = {1: "C01: a successful run left an entity it wrote without a certificate that verifies under and names its issuer's current certificate",
                 2: "C10: a run with the same flags right after a successful run wrote files or failed",
                 3: "C12: after a successful default run an entity lacks certificate or key material, or a hashed certificate does not chain",
                 4: "C14: a run replaced or dropped an existing key / request, or the new certificate does not carry its public key",
                 5: "C15: a failed write was reported as a successful run",
                 6: "C10: an existing certificate file was replaced although the answer at the prompt was not y",
                 11: "C03: a certificate the run has just written does not show the subject / serial number / validity / content of the entity's current configuration",
                 9: "C09: a run was not refused (or wrote files) although an entity violates its profile",
                 10: "C18: a directory in which every entity reaches a root through defined issuers was refused",
                 8: "C15/C20: the run panicked instead of ending with a result",
                 7: "C11: the entities a successful run wrote are not the ones its flags demand in the state the history had reached (regen relation)"}
        found = re.findall(r"\( ?(\d+), ?\( ?\[([\d; ]*)\], ?\[([\d;, ()]*)\]\)\)", body)
        err = count_check(o, len(found), name) or err
        for j, steps_s, rules_s in found:
            i = idx[int(j)]
            rules = [(int(a), int(b)) for a, b in re.findall(r"\( ?(\d+), ?(\d+)\)", rules_s)]
            det = []
            if steps_s.strip(): det.append("implementation and model differ at step(s) [%s]" % steps_s)
            for st, r in rules: det.append("step %d: %s" % (st, RULES.get(r, str(r))))
            viol.append({"case": descr[i][:4000], "detail": "; ".join(det), "rules": rules, "concrete": bool(rules), "coq": terms[i][:30000]})
        for f in (name + ".vo", name + ".glob", name + ".vok", name + ".vos", "." + name + ".aux"):
            try: os.remove(os.path.join(C["bdir"], f))
            except OSError: pass
    # distribution of what the histories contained: operations, faults, run outcomes as the implementation reported them
    dist = {}
    for t in terms:
        for k in ("OpAdd", "OpEditCfg", "OpEditProfile", "OpTouchCfg", "OpDeleteFile", "OpTear", "OpReplaceUser", "OpSupplyCsr", "OpRemove", "FailNoWrite", "Torn", "DoneThenDie"):
            dist[k] = dist.get(k, 0) + t.count(k + " ") + t.count(k + ")")
        obs = t[t.index("], [") + 3:] if "], [" in t else ""
        for code, name in ((1, "run ok"), (2, "run error"), (3, "panic"), (4, "died at a write"), (5, "nothing to do"), (6, "refused"), (7, "plan error"), (8, "aborted at prompt")):
            dist[name] = dist.get(name, 0) + len(re.findall(r"\(%d, \[[\d;]*\], \[" % code, obs))
    return {"cases": len(terms), "nontrivial": len(set(terms)), "samples": [d[:700] for d in descr[1:len(descr):max(1, len(descr) // 3)]][:3], "violations": viol, "error": err,
            "steps": steps, "runs": runs, "distribution": {k: v for k, v in dist.items() if v}}

KEY_HEADER = """From Coq Require Import List NArith ZArith Bool String.
From Coq.Strings Require Import Byte.
From Gopki.Model Require Import Bytes Base64 Der Asn1 Text Algs Pkcs8 Pem KeyCaseLib.
Import ListNotations.
Set Printing Depth 1000000.
"""
KEY_CODES = {("K", 1): "PKCS#8 bytes written by gopki differ from the model's encoding (RFC 5208/5915 form with fixed-width scalar)",
             ("K", 2): "the written PKCS#8 does not parse back (model parser) to the same key",
             ("P", 3): "gopki's parser and the model's parser read different keys from the same bytes",
             ("P", 4): "gopki rejects a PKCS#8 structure the model (and the property) accepts",
             ("P", 5): "gopki accepts bytes that are not a valid supported key",
             ("P", 6): "C17: the key gopki reads has the right scalar but a public point that does not belong to it (scalar times base point, computed by the harness)",
             ("M", 1): "PEM block list differs from the model's pem.Decode", ("M", 2): "'undecodable data left' differs from the model",
             ("M", 3): "objects / error reported by cert.ReadPem differ from the model", ("M", 4): "the directory import keeps different objects than the model",
             ("H", 1): "stored configuration hash read from the artifact file differs from the model", ("H", 2): "opening the directory panicked on this artifact file",
             ("N", 1): "C18: file read as a configuration / ignored against the suffix rule", ("N", 2): "C18: alias is neither the explicit alias nor the file's base name",
             ("N", 3): "C18: the artifact was not written next to its configuration (<config path without extension>.pem)", ("N", 4): "the name derivation would panic"}

def run_keys(kind, tier, seed, C):
    p = subprocess.run([os.path.join(C["VERIF"], "harness", "harness"), kind, tier, str(seed)], capture_output=True, text=True, env=C["ENV"], timeout=7200)
    if p.returncode != 0:
        return {"cases": 0, "nontrivial": 0, "samples": [], "violations": [], "error": "harness %s failed: %s" % (kind, p.stderr[-300:])}
    descr = {"K": [], "P": [], "M": [], "H": [], "N": []}; terms = {"K": [], "P": [], "M": [], "H": [], "N": []}; viol = []; last = None; extra = 0; summary = None
    for l in p.stdout.split("\n"):
        if l.startswith("CASE "): last = l[5:]
        elif l.startswith("COQ "):
            k = l[4]; terms[k].append("(" + l[6:] + ")"); descr[k].append(last)
        elif l.startswith("SELFFAIL "): viol.append({"case": l[9:300], "detail": l[9:], "concrete": True})
        elif l.startswith("SUMMARY "):
            summary = l[8:]; mm = re.search(r"cases=(\d+)", l); extra = int(mm.group(1)) if mm else 0
    DEF = {"K": ("key_case", "run_keys"), "P": ("parse_case", "run_parses"), "M": ("pem_case", "run_pems"), "H": ("hash_case", "run_hashes"), "N": ("name_case", "run_names")}
    procs = []
    for k in "KPMHN":
        if not terms[k]: continue
        nsh = nshards(terms[k], 80, 8)
        for sh_i in range(nsh):
            idx = list(range(sh_i, len(terms[k]), nsh))
            name = "Keys_%s_%s_%d" % (re.sub(r"\W", "_", kind), k, sh_i)
            v = KEY_HEADER + "Definition cases : list %s := [\n" % DEF[k][0] + ";\n".join(terms[k][i] for i in idx) + "].\nDefinition M := Eval vm_compute in %s cases.\nPrint M.\nDefinition MN := Eval vm_compute in List.length M.\nPrint MN.\n" % DEF[k][1]
            open(os.path.join(C["bdir"], name + ".v"), "w").write(v)
            procs.append((k, idx, name, Coqc(["coqc"] + C["COQ_Q"] + [name + ".v"], C["bdir"], C["ENV"])))
    err = None
    for k, idx, name, pr in procs:
        try: o, e = pr.communicate(timeout=14000)
        except subprocess.TimeoutExpired:
            pr.kill(); err = "coqc %s timed out" % name; continue
        if pr.returncode != 0:
            err = "coqc %s failed: %s" % (name, e.strip()[-400:]); continue
        m = re.search(r"M\s*=\s*(.*?)\s*:\s*list", re.sub(r"%(N|nat|Z)\b", "", o), re.S)
        if not m: err = "coqc %s: no result" % name; continue
        found = re.findall(r"\( ?(\d+), ?\[([^\]]*)\]\)", re.sub(r"\s+", " ", m.group(1)))
        err = count_check(o, len(found), name) or err
        for j, codes in found:
            cs = [int(x) for x in re.findall(r"\d+", codes)]
            i = idx[int(j)]
            viol.append({"case": descr[k][i], "detail": "; ".join(KEY_CODES.get((k, c), str(c)) for c in cs), "codes": cs,
                         "concrete": (any(c in (2, 5, 6) for c in cs) if k in "KP" else (2 in cs if k == "H" else (k == "N"))), "coq": terms[k][i][:20000]})
        for f in (name + ".vo", name + ".glob", name + ".vok", name + ".vos", "." + name + ".aux"):
            try: os.remove(os.path.join(C["bdir"], f))
            except OSError: pass
    n = sum(len(terms[k]) for k in terms)
    alld = descr["K"] + descr["P"] + descr["M"] + descr["H"] + descr["N"]
    if extra: n = max(n, extra)
    return {"cases": n, "nontrivial": len(set(sum(terms.values(), []))), "summary": summary, "samples": alld[1:len(alld):max(1, len(alld) // 3)][:3], "violations": viol, "error": err,
            "kinds": {k: len(terms[k]) for k in terms}}

HASH_HEADER = """From Coq Require Import List NArith ZArith Bool String.
From Coq.Strings Require Import Byte.
From Gopki.Model Require Import Bytes Base64 Der Asn1 Text Algs Ext Rdn Time X509 Generate Merge Validate Current Effective HashView HashCaseLib.
Import ListNotations.
Set Printing Depth 1000000.
Definition cases : list hash_pair := [
"""
HASH_CODES = {1: "model and implementation disagree on whether the two configuration hashes are equal",
              2: "C13 sensitivity: the hashes are equal although the edit changes the certificate that gets generated",
              3: "C13 stability: the hashes differ although nothing certificate-relevant differs (alias / profile name / text form / parse time / written-out default)",
              4: "one side is rejected by exactly one of model and implementation"}

def run_hview(kind, tier, seed, C):
    p = subprocess.run([os.path.join(C["VERIF"], "harness", "harness"), kind, tier, str(seed)], capture_output=True, text=True, env=C["ENV"], timeout=7200)
    if p.returncode != 0:
        return {"cases": 0, "nontrivial": 0, "samples": [], "violations": [], "error": "harness %s failed: %s" % (kind, p.stderr[-300:])}
    descr = []; terms = []; viol = []
    for l in p.stdout.split("\n"):
        if l.startswith("CASE "): descr.append(l[5:])
        elif l.startswith("COQ "): terms.append("(" + l[4:] + ")")
        elif l.startswith("SELFFAIL "): viol.append({"case": l[9:300], "detail": l[9:], "concrete": True})
    nsh = nshards(terms, 100, 12, 1200000); procs = []
    for k in range(nsh):
        idx = list(range(k, len(terms), nsh)); name = "Hash_%d" % k
        open(os.path.join(C["bdir"], name + ".v"), "w").write(HASH_HEADER + ";\n".join(terms[i] for i in idx) + "].\nDefinition M := Eval vm_compute in run_pairs cases.\nPrint M.\nDefinition MN := Eval vm_compute in List.length M.\nPrint MN.\n")
        procs.append((idx, name, Coqc(["coqc"] + C["COQ_Q"] + [name + ".v"], C["bdir"], C["ENV"])))
    err = None
    for idx, name, pr in procs:
        try: o, e = pr.communicate(timeout=14000)
        except subprocess.TimeoutExpired:
            pr.kill(); err = "coqc %s timed out" % name; continue
        if pr.returncode != 0:
            err = "coqc %s failed: %s" % (name, e.strip()[-400:]); continue
        m = re.search(r"M\s*=\s*(.*?)\s*:\s*list", re.sub(r"%(N|nat|Z)\b", "", o), re.S)
        if not m: err = "coqc %s: no result" % name; continue
        found = re.findall(r"\( ?(\d+), ?\[([^\]]*)\]\)", re.sub(r"\s+", " ", m.group(1)))
        err = count_check(o, len(found), name) or err
        for j, codes in found:
            cs = [int(x) for x in re.findall(r"\d+", codes)]; i = idx[int(j)]
            viol.append({"case": descr[i][:3000], "detail": "; ".join(HASH_CODES.get(c, str(c)) for c in cs), "codes": cs, "concrete": any(c in (2, 3) for c in cs), "coq": terms[i][:20000]})
        for f in (name + ".vo", name + ".glob", name + ".vok", name + ".vos", "." + name + ".aux"):
            try: os.remove(os.path.join(C["bdir"], f))
            except OSError: pass
    kinds = {}
    for d in descr:
        k = re.sub(r"^hview-\d+-\d+-", "", d.split(" ")[0]); kinds[k] = kinds.get(k, 0) + 1
    return {"cases": len(terms), "nontrivial": len(set(terms)), "samples": [d[:500] for d in descr[2:len(descr):max(1, len(descr) // 3)]][:3], "violations": viol, "error": err, "pair_kinds": kinds,
            "unparsed_pairs": sum(1 for t in terms if t.endswith("None)"))}

def run_stream(st, prop, tier, seed, C):
    if st in PIPE: return run_pipe(PIPE[st], tier, seed, C)
    if st in ("hview", "hview-adm"): return run_hview(st, tier, seed, C)
    if st in ("pkcs8", "pem", "hostile-files", "names"): return run_keys(st, tier, seed, C)
    if st in ("dirrun", "dirfault", "cli"): return run_dir(st, tier, seed, C)
    if st.startswith("cert-"):
        tz = None
        if "@" in st: st, tz = st.split("@")
        return run_cert(st, tier, seed, C, tz)
    raise Exception("unknown stream " + st)

def replay(path, sh, VERIF, REPO):
    r = json.load(open(path))
    print(json.dumps(r, indent=1)[:6000])
    lines = [v["case"] for v in r.get("failing_inputs", []) + r.get("disagreements_without_established_spec_violation", []) if re.match(r"^[MVPG] ", v.get("case", ""))]
    if lines:
        p = subprocess.run([os.path.join(VERIF, "ocaml", "driver")], input="\n".join(lines) + "\n", capture_output=True, text=True)
        print("--- model / spec on the recorded case lines (the implementation's recorded result is inside each line):")
        print(p.stdout)
    return 0
