"""Stream runners: each returns {cases, nontrivial, samples, violations[, error]}.
A violation is {case, detail, concrete}: concrete = the specification oracle (or a theorem equating model and
specification) shows that the implementation's output on this input violates the property."""
import hashlib, json, os, re, subprocess, time

TRUSTED_BASE = [
    "Coq 8.16.1 kernel via coqc (full .vo build, no -vos/-vok); vm_compute is used for finite sweeps, witnesses and cases.v evaluation; native_compute is not used",
    "axioms: none - Print Assumptions of every property theorem reports 'Closed under the global context'",
    "extraction: Require Extraction + ExtrOcamlBasic only (bool, option, list, prod, unit, sumbool -> OCaml); no Extract Constant / Extract Inductive of ours; OCaml 4.13.1; hand-written line reader ocaml/driver.ml",
    "correspondence check: Go harness /verif/harness built against /repo's working tree (replace directive), tools/check.py, tools/streams.py",
    "modelled, not verified: Go standard library (encoding/asn1, encoding/json, encoding/pem, encoding/base64, time, math/big, crypto/*), keybase brainpool, ghodss/yaml, jsonschema, os / io/fs, cobra",
]

# ---------------------------------------------------------------- pipe streams: harness | extracted driver
PIPE = {"merge": "merge", "validate": "validate", "plan": "plan", "graph": "graph"}

def nontrivial_pipe(kind, line):
    f = line[2:].split("|")
    if kind == "merge": return f[0] != "" and f[1] != ""
    if kind == "validate": return f[1] not in ("", "nil")
    if kind == "plan": return ",1," in "," + f[1]  # some file present (coarse) 
    if kind == "graph": return f[0].count(",") >= 1
    return True

def run_pipe(kind, tier, seed, C):
    epath = os.path.join(C["bdir"], "harness-%s.err" % kind); dpath = os.path.join(C["bdir"], "driver-%s.out" % kind)
    efile = open(epath, "w"); dfile = open(dpath, "w")   # files, not pipes: nobody reads them while we feed the driver
    h = subprocess.Popen([os.path.join(C["VERIF"], "harness", "harness"), kind, tier, str(seed)], stdout=subprocess.PIPE, stderr=efile, env=C["ENV"], text=True, bufsize=1 << 20)
    d = subprocess.Popen([os.path.join(C["VERIF"], "ocaml", "driver")], stdin=subprocess.PIPE, stdout=dfile, env=C["ENV"], text=True, bufsize=1 << 20)
    seen = set(); n = 0; samples = []
    for line in h.stdout:
        n += 1
        d.stdin.write(line)
        if nontrivial_pipe(kind, line): seen.add(hash(line))
        if n in (7, 5003, 50021): samples.append(line.strip())
    d.stdin.close()
    h.wait(); d.wait(); efile.close(); dfile.close()
    herr = open(epath).read(); dout = open(dpath).read()
    lines = dout.strip().split("\n")
    done = re.match(r"DONE cases=(\d+) mismatches=(\d+)", lines[-1]) if lines and lines[-1] else None
    viol = []
    for l in lines:
        if l.startswith("MISMATCH") or l.startswith("BADLINE"):
            m = re.match(r"(MISMATCH|BADLINE) (\S+ \S+)\s*(.*)", l)
            case, detail = (m.group(2), m.group(3)) if m else (l, "")
            # the model at the current switches is proved equal to the specification (merge_refines_spec, validate_fixed_spec,
            # plan_spec, is_consistent_iff), so an input on which the implementation differs from it violates the property
            viol.append({"case": case, "detail": detail, "concrete": l.startswith("MISMATCH")})
    err = None
    if h.returncode != 0 or d.returncode != 0 or not done:
        err = "stream %s broke (harness rc=%s, driver rc=%s): %s" % (kind, h.returncode, d.returncode, (herr or dout)[-300:])
    elif int(done.group(1)) != n:
        err = "stream %s: driver saw %s of %d cases" % (kind, done.group(1), n)
    return {"cases": n, "nontrivial": len(seen), "samples": samples, "violations": viol, "error": err}

def run_stream(st, prop, tier, seed, C):
    if st in PIPE: return run_pipe(PIPE[st], tier, seed, C)
    raise Exception("unknown stream " + st)

def replay(path, sh, VERIF, REPO):
    r = json.load(open(path))
    print(json.dumps(r, indent=1)[:6000])
    lines = [v["case"] for v in r.get("failing_inputs", []) + r.get("disagreements_without_established_spec_violation", []) if re.match(r"^[MVPG] ", v.get("case", ""))]
    if lines:
        p = subprocess.run([os.path.join(VERIF, "ocaml", "driver")], input="\n".join(lines) + "\n", capture_output=True, text=True)
        print("--- model / spec on the recorded case lines (the implementation's recorded result is inside each line):")
        print(p.stdout)
    return 0
