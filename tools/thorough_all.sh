#!/bin/bash
# Runs the thorough tier of every property (or of those given) once, after a clean Coq rebuild and a coqchk pass over the
# property files.  Meant for `vp run -- bash tools/thorough_all.sh` or a manual soak; the registered thorough_cmd of each
# property is `python3 tools/check.py <id> thorough`.
cd "$(dirname "$0")/.."
PROPS=${@:-C08 C09 C18 C11 C02 C03 C04 C05 C06 C07 C16 C19 C13 C17 C20 C10 C12 C14 C15 C01}
t0=$(date +%s)
( cd coq && rm -f Makefile Makefile.conf .Makefile.d && find . -name '*.vo' -o -name '*.vok' -o -name '*.vos' -o -name '*.glob' -o -name '.*.aux' | xargs rm -f )
python3 tools/check.py setup || exit 1
echo "clean build + setup: $(( $(date +%s) - t0 )) s"
t=$(date +%s)
( cd coq && timeout 7200 coqchk -silent -o -Q Model Gopki.Model -Q Spec Gopki.Spec -Q Proofs Gopki.Proofs -Q Properties Gopki.Properties $(ls Properties/C*.v | sed 's#Properties/\(C[0-9]*\)\.v#Gopki.Properties.\1#') 2>&1 | tail -25 )
echo "coqchk took $(( $(date +%s) - t )) s"
for p in $PROPS; do
  t=$(date +%s)
  python3 tools/check.py $p thorough | grep -E "^(OK|VIOLATION|KNOWN)"
  echo "   $p thorough took $(( $(date +%s) - t )) s"
done
