#!/bin/bash
# try_seed.sh <patch.diff> <Cnn> [<Cnn>...]: apply a seeded change to /repo, run the quick checks, undo it straight afterwards.
P=$1; shift
git -C /repo apply $P || { echo "patch does not apply"; exit 2; }
trap 'git -C /repo checkout -- . ' EXIT
for c in "$@"; do python3 /verif/tools/check.py $c ${TIER:-quick} 2>&1 | grep -E "^(VIOLATION|OK|KNOWN)" ; done
