#!/bin/bash
# try_seed_wt.sh <patch.diff> <Cnn> [<Cnn>...]: like try_seed.sh, but leaves /repo alone: the change is applied to a scratch
# worktree of /repo's HEAD and the checks run from a private copy of /verif against that worktree (VERIF_REPO).
# Scratch locations: $SEED_COPY (default /tmp/vcopy2), $SEED_WT (default /tmp/seedwt); both are removed afterwards unless KEEP=1.
P=$1; shift
COPY=${SEED_COPY:-/tmp/vcopy2}; WT=${SEED_WT:-/tmp/seedwt}
mkdir -p $COPY; rsync -a --delete --exclude build --exclude .git --exclude evidence /verif/ $COPY/; mkdir -p $COPY/evidence
git -C /repo worktree remove --force $WT 2>/dev/null; git -C /repo worktree add -q --detach $WT HEAD || exit 2
git -C $WT apply $P || { echo "patch does not apply"; git -C /repo worktree remove --force $WT; exit 2; }
for c in "$@"; do (cd $COPY && VERIF_REPO=$WT python3 tools/check.py $c ${TIER:-quick} 2>&1 | grep -E "^(VIOLATION|OK|KNOWN)"); done
git -C /repo worktree remove --force $WT
[ -n "${KEEP:-}" ] || rm -rf $COPY
