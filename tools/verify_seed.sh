#!/bin/bash
# verify_seed.sh <worktree> <outdir>: confirms a seeded change: suite passes with it, demo fails with it and passes without it.
# Used only while curating /verif/seeded; never touches /repo.
WT=$1; OUT=$2
export GOFLAGS=-mod=mod GOPROXY=off GOSUMDB=off GOTOOLCHAIN=local
cd $WT || exit 2
DEMOS=$(git status --porcelain | grep '^??' | awk '{print $2}')
mkdir -p /tmp/mutaside6/$(basename $WT)
for d in $DEMOS; do mkdir -p /tmp/mutaside6/$(basename $WT)/$(dirname $d); mv $d /tmp/mutaside6/$(basename $WT)/$d; done
git diff > $OUT/patch.verified.diff
go build ./... > $OUT/v_build.txt 2>&1 || { echo "BUILD FAILS"; }
VERIF_REPO=$WT python3 /verif/tools/baseline.py > $OUT/v_suite.txt 2>&1; S=$?
for d in $DEMOS; do mv /tmp/mutaside6/$(basename $WT)/$d $d; done
PK=$(for d in $DEMOS; do echo ./$(dirname $d)/; done | sort -u | tr '\n' ' ')
go test -vet=off -count=1 -run 'Demo|C[0-9][0-9]' $PK > $OUT/v_demo_with.txt 2>&1; W=$?
git diff > /tmp/mutaside6/$(basename $WT).diff; git apply -R /tmp/mutaside6/$(basename $WT).diff
go test -vet=off -count=1 -run 'Demo|C[0-9][0-9]' $PK > $OUT/v_demo_without.txt 2>&1; WO=$?
git apply /tmp/mutaside6/$(basename $WT).diff
echo "$(basename $WT): suite_rc=$S demo_with_rc=$W demo_without_rc=$WO demos=[$DEMOS] pk=[$PK]"
